"""PERM — index-space (register order vs. MPS site order) discipline of emu-mps (DESIGN.md A.1).

`Space` is computed as a fold over the provenance terms produced by the
interpreter.  Sources, converters and sinks are explicit tables below.
"""
from __future__ import annotations

import ast

from ..interp import Interp, Path, SELF, Event, contains, field_defs, show, strip_typed, walk
from ..model import AnalysisError, ClassInfo, FuncInfo
from . import util

BOT, NEUTRAL, REG, SITE, PERM, PERM_ID, INVPERM, TOP = "⊥", "neutral", "REG", "SITE", "PERM", "PERM_ID", "INVPERM", "⊤"

OPT = "emu_mps.optimatrix.permutations."
GATHER = {OPT + "permute_tensor", OPT + "permute_list", OPT + "permute_tuple", OPT + "permute_string"}
SEQDATA = "emu_base.pulser_adapter.SequenceData"
IMPL = "emu_mps.mps_backend_impl.MPSBackendImpl"

# attributes of a per-atom object that are themselves per-atom (everything else is neutral)
PROPAGATING_ATTRS = {"factors", "data", "real", "imag", "T", "mT", "mH", "results", "_results", "atom_order"}
# SequenceData fields laid out along the atom axis in register order
SEQ_REG_FIELDS = {"omega", "delta", "phi", "bad_atoms", "qubit_ids"}
NEUTRAL_METHODS = {"norm", "item", "size", "numel", "dim", "get_max_bond_dim", "get_memory_footprint", "is_file",
                   "any", "all", "sum", "max", "min", "get_result_tags", "_find_uuid", "is_nonzero", "with_suffix"}
NEUTRAL_CALLS = {"len", "int", "float", "str", "isinstance", "range", "time.time", "sum", "max", "min", "abs",
                 "torch.zeros", "torch.ones", "torch.eye", "torch.allclose", "torch.equal", "os.getcwd",
                 "logging.getLogger", "uuid.uuid1", "pathlib.Path", "math.isclose", "random.uniform"}
STR_KEYS_PROPAGATING = {"amplitudes"}


def join(a: str, b: str) -> str:
    if a == b:
        return a
    if a in (BOT, NEUTRAL):
        return b
    if b in (BOT, NEUTRAL):
        return a
    if {a, b} == {PERM, PERM_ID}:
        return PERM   # the identity permutation is a permutation (`perm if reorder else eye`, as a term or as two paths)
    return TOP


class SpaceEval:
    def __init__(self, prog, interp_factory):
        self.prog = prog
        self.mk = interp_factory
        self._fd: dict = {}
        self._summ: dict = {}
        self.problems: list = []
        self.nfacts = 0

    # ------------------------------------------------------------ helpers
    def fdefs(self, cls: ClassInfo) -> dict:
        if cls.qualname not in self._fd:
            self._fd[cls.qualname] = field_defs(self.prog, cls)
        return self._fd[cls.qualname]

    def identity(self, path: Path | None, ncond: int | None, cls) -> bool:
        """The permutation is known to be the identity at this point of the path."""
        if path is None:
            return False
        log = path.cond_log if ncond is None else path.cond_log[:ncond]
        return self.identity_log(log, cls)

    def identity_log(self, log, cls) -> bool:
        for c, truth in log:
            if c[0] == "call" and c[1] == "torch.equal" and len(c[2]) == 2:
                s = {self.sp(c[2][0], cls, None, None, frozenset()), self.sp(c[2][1], cls, None, None, frozenset())}
                if s == {PERM, PERM_ID} and truth:
                    return True
            if truth is False and self.is_opt_flag(c):
                return True
        return False

    @staticmethod
    def is_opt_flag(t) -> bool:
        t = strip_typed(t)
        return t[0] == "attr" and t[2] == "optimize_qubit_ordering"

    def typeq(self, term, cls) -> str | None:
        it = self.mk(cls)
        c = it.type_of(term)
        return c.qualname if c is not None else None

    # --------------------------------------------------------------- fold
    def space(self, term, cls, path: Path | None = None, ncond: int | None = None) -> str:
        s = self.sp(term, cls, path, ncond, frozenset())
        if s == REG and self.identity(path, ncond, cls):
            return SITE
        return s

    def sp(self, t, cls, path, ncond, seen) -> str:
        self.nfacts += 1
        t0 = t
        t = strip_typed(t)
        k = t[0]
        rec = lambda x: self.sp(x, cls, path, ncond, seen)  # noqa: E731
        if k in ("const", "ref", "ext", "global", "lambda", "fstr", "self", "param", "localfunc", "bottom",
                 "exc", "cmp", "classdefault", "expr", "localclass"):
            return NEUTRAL
        if k == "default":
            return rec(t[1])
        if k == "attr":
            base, name = t[1], t[2]
            tq = self.typeq(base, cls)
            if tq == SEQDATA:
                return REG if name in SEQ_REG_FIELDS else NEUTRAL
            if name == "initial_state" and strip_typed(base)[0] in ("attr", "param"):
                return REG  # a user-supplied state lists atoms in register order
            if tq is not None and tq in self.prog.classes:
                c = self.prog.classes[tq]
                key = (tq, name)
                if key in seen:
                    return BOT
                defs = self.fdefs(c).get(name)
                if defs:
                    out = BOT
                    for v, ev in defs:
                        s1 = self.sp(v, c, None, None, seen | {key})
                        # a store made on a path where the permutation is the identity: register order is site order
                        if s1 == REG and ev is not None and self.identity_log(ev.conds, c):
                            s1 = SITE
                        out = join(out, s1)
                    return out
                return NEUTRAL
            b = rec(base)
            return b if name in PROPAGATING_ATTRS else NEUTRAL
        if k == "sub":
            return self.sub_space(t, cls, path, ncond, seen)
        if k in ("call", "mcall", "vcall"):
            return self.call_space(t, cls, path, ncond, seen)
        if k == "new":
            out = BOT
            for v in list(t[2]) + [v for _, v in t[3]]:
                out = join(out, rec(v))
            return out
        if k == "ifexp":
            a, b = rec(t[2]), rec(t[3])
            if {a, b} == {PERM, PERM_ID}:
                return PERM
            return join(a, b)
        if k == "bin":
            return join(rec(t[2]), rec(t[3]))
        if k == "un":
            return rec(t[2])
        if k == "bool":
            out = BOT
            for v in t[2]:
                out = join(out, rec(v))
            return out
        if k in ("tuple", "list", "set"):
            out = BOT
            for v in t[1]:
                out = join(out, rec(v))
            return out
        if k == "dict":
            out = BOT
            for a, b in t[1]:
                out = join(out, rec(b))
            return out
        if k == "comp":
            if t[1] == "dict":
                return rec(t[2][0])  # the keys carry the per-atom ordering
            out = BOT
            for v in t[2]:
                out = join(out, rec(v))
            return out
        if k == "elem":
            return rec(t[1])
        if k == "unpack":
            return rec(t[1])
        if k in ("star", "ctx", "loop"):
            return rec(t[1])
        if k == "slice":
            return NEUTRAL
        return NEUTRAL

    def sub_space(self, t, cls, path, ncond, seen) -> str:
        base, idx = t[1], t[2]
        b = self.sp(base, cls, path, ncond, seen)
        comps = idx[1] if idx[0] == "tuple" else (idx,)
        ident = self.identity(path, ncond, cls)
        for c in comps:
            if c[0] == "const" and isinstance(c[1], str):
                return b if c[1] in STR_KEYS_PROPAGATING else NEUTRAL
            s = self.sp(c, cls, path, ncond, seen)
            if s == PERM:
                if b == REG:
                    b = SITE
                elif b == SITE:
                    self.problem("wrong-direction", t, "forward permutation applied to a site-ordered value")
                    b = TOP
            elif s == INVPERM:
                if b == SITE:
                    b = REG
                elif b == REG:
                    self.problem("wrong-direction", t, "inverse permutation applied to a register-ordered value")
                    b = TOP
            elif s in (REG, SITE):
                bb, ss = b, s
                if ident:
                    bb = SITE if bb == REG else bb
                    ss = SITE if ss == REG else ss
                if bb in (REG, SITE) and bb != ss:
                    self.problem("index-space-mismatch", t,
                                 f"{bb}-ordered value indexed with a {ss}-ordered mask ({show(c)})")
            elif s == TOP:
                self.problem("index-space-mismatch", t, f"index {show(c)} mixes register and site order")
        return b

    def call_space(self, t, cls, path, ncond, seen) -> str:
        rec = lambda x: self.sp(x, cls, path, ncond, seen)  # noqa: E731
        if t[0] == "vcall":
            recv, pos, kw = t[1], t[2], t[3]
            return rec(recv)
        if t[0] == "mcall":
            recv, name, pos, kw = t[1], t[2], t[3], t[4]
        else:
            recv, name, pos, kw = None, t[1], t[2], t[3]
        short = name.split(".")[-1]
        args = list(pos) + [v for _, v in kw]
        # ---- permutation sources
        if name == "emu_mps.optimatrix.optimiser.minimize_bandwidth":
            return PERM
        if name in (OPT + "eye_permutation", "torch.arange"):
            return PERM_ID
        if name == OPT + "inv_permutation":
            a = rec(args[0]) if args else NEUTRAL
            return {PERM: INVPERM, INVPERM: PERM, PERM_ID: PERM_ID}.get(a, TOP)
        # ---- gather converters
        if name in GATHER:
            if len(args) < 2:
                return TOP
            x, p = rec(args[0]), rec(args[1])
            ident = self.identity(path, ncond, cls)
            if p == PERM_ID or x in (NEUTRAL, BOT):
                return x
            if p == PERM:
                if x == REG:
                    return SITE
                self.problem("wrong-direction", t, f"forward permutation applied to a {x}-ordered value")
                return TOP
            if p == INVPERM:
                if x == SITE or (x == REG and ident):
                    return REG
                self.problem("wrong-direction", t, f"inverse permutation applied to a {x}-ordered value")
                return TOP
            self.problem("not-a-permutation", t, f"second argument of {short} is not the qubit permutation ({p})")
            return TOP
        # ---- results un-permutation
        if name == IMPL + ".permute_results":
            res = rec(args[0]) if args else NEUTRAL
            flag = args[1] if len(args) > 1 else None
            flag_ok = flag is not None and (self.is_opt_flag(flag) or strip_typed(flag) == ("const", True))
            if not flag_ok:
                self.problem("flag", t, f"permute_results is switched by {show(flag) if flag else 'nothing'}, "
                                        "not by the flag that enables the qubit permutation")
                return res
            if res == SITE:
                return REG
            if res == REG:
                self.problem("wrong-direction", t, "permute_results applied to results already in register order")
                return TOP
            return res
        # ---- SequenceData.interaction_matrix(t)
        if short == "interaction_matrix" and recv is not None and self.typeq(recv, cls) == SEQDATA:
            return REG
        if recv is not None and short == "interaction_matrix" and strip_typed(recv)[0] == "attr" and \
                strip_typed(recv)[2] == "pulser_data":
            return REG
        # ---- repository callee: return-value summary
        fi = self.prog.funcs.get(name)
        if fi is not None:
            return self.summary(fi, recv, cls, seen)
        if short in NEUTRAL_METHODS or name in NEUTRAL_CALLS:
            return NEUTRAL
        out = rec(recv) if recv is not None else BOT
        for a in args:
            out = join(out, rec(a))
        return out

    def summary(self, fi: FuncInfo, recv, cls, seen) -> str:
        c = cls
        if recv is not None:
            tq = self.typeq(recv, cls)
            if tq in self.prog.classes:
                c = self.prog.classes[tq]
        elif fi.cls is not None:
            c = fi.cls
        key = ("summary", fi.qualname, c.qualname if c else "")
        if key in seen:
            return BOT
        if key in self._summ:
            return self._summ[key]
        it = self.mk(c if fi.cls is not None else None)
        paths = it.run(fi)
        out = BOT
        for p in paths:
            if p.status != "return":
                continue
            s = self.sp(p.retval, c if fi.cls is not None else cls, p, None, seen | {key})
            if s == REG and self.identity(p, None, c):
                s = SITE
            out = join(out, s)
        self._summ[key] = out
        return out

    def problem(self, kind: str, term, detail: str) -> None:
        self.problems.append((kind, term, detail))


# ----------------------------------------------------------------- the rules
SINKS_CALL = {
    "emu_mps.hamiltonian.update_H": {"omega": SITE, "delta": SITE, "phi": SITE},
    "emu_mps.hamiltonian.make_H": {"interaction_matrix": SITE},
    "emu_mps.utils.extended_mps_factors": {"where": SITE, "mps_factors": SITE},
    "emu_mps.utils.extended_mpo_factors": {"where": SITE},
    "emu_mps.utils.get_extended_site_index": {"where": SITE},
}


def _mk_factory(prog):
    def mk(cls):
        return Interp(prog, cls, max_depth=8)
    return mk


def check_impl(ctx, cls_q: str, which: set[str]) -> None:
    """PERM sinks inside the emu-mps driver class `cls_q`.  `which` selects sink groups:
    'drive' (S1), 'matrix' (S2), 'state' (S3), 'mask' (S4,S5), 'results' (S6), 'permfield'."""
    prog = ctx.prog
    K = prog.cls(cls_q)
    S = SpaceEval(prog, _mk_factory(prog))
    entries = [m for m in prog.functions_in(K) if not m.is_static and m.name not in ("__getstate__", "__setstate__")]
    counted = 0
    for m in entries:
        it = Interp(prog, K, max_depth=8)
        paths = it.run(m)
        ctx.count("paths", len(paths))
        ctx.count("entry_points")
        for p in paths:
            for e in p.events:
                if e.kind == "call" and e.name in SINKS_CALL:
                    for pname, need in SINKS_CALL[e.name].items():
                        group = {"omega": "drive", "delta": "drive", "phi": "drive",
                                 "interaction_matrix": "matrix", "where": "mask", "mps_factors": "mask"}[pname]
                        if group not in which or pname not in e.args:
                            continue
                        S.problems.clear()
                        got = S.space(e.args[pname], K, p, e.ncond)
                        probs = list(S.problems)
                        ok = got in (need, NEUTRAL) and not probs
                        if got in (TOP,) and not probs:
                            raise AnalysisError(f"PERM: index space of {pname} at {e.loc()} is undecided: "
                                                f"{show(e.args[pname])}")
                        what = e.name.split(".")[-1]
                        detail = (f"{what}({pname}=) receives a {got}-ordered value on every path"
                                  if ok else
                                  f"{what}({pname}={show(e.args[pname])[:140]}) receives a {got}-ordered per-atom "
                                  f"value where site order is required"
                                  + ("; " + "; ".join(d for _, _, d in probs) if probs else "")
                                  + " — with a non-identity qubit permutation the value lands on the wrong atoms")
                        ctx.ob("PERM-sink", f"{e.func.qualname}|{what}|{pname}", e.loc(), ok, detail,
                               entry=m.qualname)
                        counted += 1
                if e.kind == "setattr" and e.target[0] == SELF:
                    if e.name == "state" and "state" in which:
                        S.problems.clear()
                        got = S.space(e.value, K, p, e.ncond)
                        ok = got in (SITE, NEUTRAL) and not S.problems
                        ctx.ob("PERM-sink", f"{e.func.qualname}|{util.akey(e.node, e.func, 70)}", e.loc(), ok,
                               f"the state stored as self.state is {got}-ordered" if ok else
                               f"self.state = {show(e.value)[:140]} is {got}-ordered; the Hamiltonian it evolves "
                               f"under is site-ordered" + "".join("; " + d for _, _, d in S.problems),
                               entry=m.qualname)
                    if "mask" in which and contains(e.value, lambda t: t[0] == "sub"):
                        S.problems.clear()
                        S.space(e.value, K, p, e.ncond)
                        for kind, term, d in S.problems:
                            if kind == "index-space-mismatch":
                                ctx.ob("PERM-mask", f"{e.func.qualname}|self.{e.name}|masked subscript", e.loc(),
                                       False, f"self.{e.name} = {show(e.value)[:120]}: {d}", entry=m.qualname)
                        if not S.problems and _has_mask_index(S, e.value, K, p, e.ncond):
                            ctx.ob("PERM-mask", f"{e.func.qualname}|self.{e.name}|masked subscript", e.loc(), True,
                                   f"self.{e.name} is masked by a filter in the same index space")
                if e.kind == "return" and "mask" in which and e.value is not None and \
                        contains(e.value, lambda t: t[0] == "sub") and e.func.name == "_get_interaction_matrix":
                    S.problems.clear()
                    S.space(e.value, K, p, e.ncond)
                    bad = [d for kind, _, d in S.problems if kind == "index-space-mismatch"]
                    if bad or _has_mask_index(S, e.value, K, p, e.ncond):
                        ctx.ob("PERM-mask", f"{e.func.qualname}|return|masked subscript", e.loc(), not bad,
                               "the interaction matrix is masked by a filter in its own index space" if not bad else
                               f"return {show(e.value)[:140]}: {bad[0]} — with a non-identity permutation the "
                               f"wrong rows/columns are removed", entry=m.qualname)
    if "results" in which:
        _results_consistency(ctx, K, S)
    if "permfield" in which:
        _perm_field(ctx, K, S)
    ctx.extra["space_facts"] = ctx.extra.get("space_facts", 0) + S.nfacts


def _has_mask_index(S: SpaceEval, term, K, p, ncond) -> bool:
    for t in walk(term):
        if t[0] == "sub":
            idx = t[2]
            comps = idx[1] if idx[0] == "tuple" else (idx,)
            for c in comps:
                if S.sp(c, K, p, ncond, frozenset()) in (REG, SITE):
                    return True
    return False


def _results_consistency(ctx, K, S: SpaceEval) -> None:
    """S6: the Results object handed to callbacks is in the same space as the state they read."""
    fd = S.fdefs(K)
    defs = fd.get("results", [])
    ctx.require(defs, f"{K.qualname}: no store to self.results found")
    for v, ev in defs:
        if ev is None:
            continue
        if ev.func.name in ("__setstate__",):
            continue
        S.problems.clear()
        got = S.space(v, K)
        if got == REG and S.identity_log(ev.conds, K):
            got = SITE   # stored on the path where the permutation is the identity
        ok = got == SITE and not S.problems
        ctx.ob("PERM-results", f"{ev.func.qualname}|self.results", ev.loc(), ok,
               "Results.atom_order is the register ids gathered by the qubit permutation (site order), the "
               "order in which callbacks index the state" if ok else
               f"self.results = {show(v)[:140]} lists atoms in {got} order while callbacks fill it from the "
               f"site-ordered state")


def _perm_field(ctx, K, S: SpaceEval) -> None:
    """The permutation field is PERM under the optimisation flag and the identity otherwise."""
    fd = S.fdefs(K)
    defs = [(v, ev) for v, ev in fd.get("qubit_permutation", []) if ev is not None]
    ctx.require(defs, f"{K.qualname}: no store to self.qubit_permutation")
    seen_pol = set()
    verdicts = []
    for v, ev in defs:
        v0 = strip_typed(v)
        ok = False
        why = f"self.qubit_permutation = {show(v)[:140]}"
        sv = S.sp(v0, K, None, None, frozenset())
        pols = set()
        for conds in getattr(ev, "alt_conds", [ev.conds]):
            fl = [t for c, t in conds if S.is_opt_flag(c)]
            pols.add(fl[-1] if fl else None)
        flag = [next(iter(pols))] if len(pols) == 1 and None not in pols else []
        if len(pols) > 1:
            # the same value is stored whatever the flag says (or on paths that never consult it)
            verdicts.append((sv == PERM_ID, f"self.qubit_permutation = {show(v)[:140]} is stored for optimize_qubit_ordering in "
                             f"{sorted(map(str, pols))}", ev))
            seen_pol |= {x for x in pols if x is not None}
            continue
        if v0[0] == "ifexp":
            c, a, b = v0[1], v0[2], v0[3]
            sa, sb = S.sp(a, K, None, None, frozenset()), S.sp(b, K, None, None, frozenset())
            if S.is_opt_flag(c) and sa == PERM and sb == PERM_ID:
                ok = True
            elif c[0] == "un" and c[1] == "not" and S.is_opt_flag(c[2]) and sa == PERM_ID and sb == PERM:
                ok = True
            seen_pol |= {True, False}
        elif flag:
            # stored on a path that has decided the flag: optimiser result when on, identity when off
            ok = (flag[-1] is True and sv == PERM) or (flag[-1] is False and sv == PERM_ID)
            seen_pol.add(flag[-1])
            why += f" on the path where optimize_qubit_ordering is {flag[-1]}"
        elif sv == PERM_ID:
            ok = True
            seen_pol |= {True, False}
            why = "the permutation is always the identity"
        verdicts.append((ok, why, ev))
    both = seen_pol == {True, False}
    ok_all = all(o for o, _, _ in verdicts) and both
    bad = [w for o, w, _ in verdicts if not o]
    ev0 = verdicts[0][2]
    ctx.ob("PERM-field", f"{ev0.func.qualname}|self.qubit_permutation", ev0.loc(), ok_all,
           "qubit_permutation is the optimiser's result exactly when config.optimize_qubit_ordering, "
           "the identity otherwise (the identity refinement used by PERM is valid)" if ok_all else
           (bad[0] if bad else "self.qubit_permutation is not defined for both values of optimize_qubit_ordering")
           + " is not (optimiser result if optimize_qubit_ordering else identity): results are "
             "un-permuted under that flag only")


# ------------------------------------------------------------- entry points
def check_entry_points(ctx, names: list[str]) -> None:
    """S7: every public MPSBackend method that returns results returns them in register order."""
    prog = ctx.prog
    B = prog.cls("emu_mps.mps_backend.MPSBackend")
    S = SpaceEval(prog, _mk_factory(prog))
    for name in names:
        m = B.methods.get(name)
        ctx.require(m is not None, f"MPSBackend.{name} not found")
        it = Interp(prog, B, inline=lambda c, r, d: False)
        paths = [p for p in it.run(m) if p.status == "return"]
        ctx.require(paths, f"MPSBackend.{name}: no returning path")
        ctx.count("paths", len(paths))
        for p in paths:
            S.problems.clear()
            v = p.retval
            got = S.space(v, B, p, None)
            if name == "run":
                # Results.aggregate over the list of per-trajectory results
                pass
            ok = got in (REG, NEUTRAL) and not S.problems and got != NEUTRAL
            ret = [e for e in p.events if e.kind == "return"][-1]
            if got == NEUTRAL:
                raise AnalysisError(f"PERM-entry: cannot type the value returned by MPSBackend.{name}: {show(v)}")
            ctx.ob("PERM-entry", f"MPSBackend.{name}|return", ret.loc(), ok,
                   f"returns results in register order ({show(v)[:100]})" if ok else
                   f"MPSBackend.{name} returns {show(v)[:120]}, which is in {got} order"
                   + "".join("; " + d for _, _, d in S.problems)
                   + " — atom_order, occupations, correlations and bitstrings stay in MPS site order whenever the "
                     "qubit ordering was optimised", entry=m.qualname)


def check_permute_results_body(ctx) -> None:
    """S8: under the flag, permute_results re-indexes bitstrings, per-atom tensors and atom_order with the
    *inverse* permutation through gather helpers."""
    prog = ctx.prog
    K = prog.cls(IMPL)
    f = K.methods.get("permute_results")
    ctx.require(f is not None, "MPSBackendImpl.permute_results not found")
    S = SpaceEval(prog, _mk_factory(prog))
    helper_mod = "emu_mps.mps_backend_impl."

    def inline(callee, recv, depth):
        return recv == SELF or callee.qualname.startswith(helper_mod)

    it = Interp(prog, K, inline=inline, max_depth=6)
    paths = [p for p in it.run(f) if p.status == "return"]
    ctx.count("paths", len(paths))
    permuting = [p for p in paths if any(c == ("param", f.qualname, "permute") and t for c, t in p.cond_log)]
    skipping = [p for p in paths if any(c == ("param", f.qualname, "permute") and not t for c, t in p.cond_log)]
    ctx.require(permuting and skipping, "permute_results: the `permute` flag does not select two behaviours")
    # every gather call on the permuting paths uses INVPERM
    seen_kinds = set()
    for p in permuting:
        for e in p.events:
            if e.kind == "call" and e.name in GATHER:
                pterm = e.args.get("perm")
                sp = S.space(pterm, K, p, e.ncond) if pterm is not None else TOP
                kind = e.name.split(".")[-1]
                seen_kinds.add((e.func.name, kind))
                ctx.ob("PERM-unpermute", f"{e.func.qualname}|{kind}", e.loc(), sp == INVPERM,
                       f"{e.func.name}: {kind} is applied with the inverse of the qubit permutation" if sp == INVPERM
                       else f"{e.func.name}: {kind}(…, {show(pterm)}) uses a {sp} permutation; un-permuting "
                            f"site-ordered results needs inv_permutation(qubit_permutation)")
    for p in skipping:
        bad = [e for e in p.events if e.kind == "call" and e.name in GATHER]
        ctx.ob("PERM-unpermute", "permute_results|flag off", f.loc(), not bad,
               "no re-indexing when the flag is off" if not bad else "results are re-indexed although the flag is off")
    ctx.floor("PERM-unpermute", 4)
