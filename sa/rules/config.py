"""CONFIG (C33) and ARGMIN (C32) rules."""
from __future__ import annotations

import ast

from ..algebra import canon, is_const, linear_in, monomials, same
from ..interp import Interp, SELF, Event, Path, contains, show, strip_typed, walk
from ..model import AnalysisError, dotted
from . import util

CFG = "emu_mps.mps_config.MPSConfig"


def mps_config(ctx) -> None:
    prog = ctx.prog
    K = prog.cls(CFG)
    f = K.methods["__init__"]
    it = Interp(prog, K, inline=lambda c, r, d: False, loop_iters=(1,))
    paths = [p for p in it.run(f) if p.status == "return"]
    ctx.require(paths, "MPSConfig.__init__: no returning path")
    ctx.count("paths", len(paths))
    # The safeguards are stated about the *constructed configuration*: the effective options, which Pulser keeps in
    # _backend_options and serves through attribute access.  A keyword argument of __init__ is not the effective option
    # (the still-accepted `backend_options={...}` dictionary overrides it), so a safeguard evaluated on the local
    # argument does not hold for every constructed configuration.
    prec = ("attr", SELF, "precision")
    extra = ("attr", SELF, "extra_krylov_tolerance")

    def eff(t):
        """self._backend_options["x"] and self.x are the same effective option"""
        if not isinstance(t, tuple) or not t:
            return t
        if not isinstance(t[0], str):        # a tuple of terms (argument lists, keyword pairs)
            return tuple(eff(x) if isinstance(x, tuple) else x for x in t)
        t = strip_typed(t)
        if not isinstance(t, tuple) or not t:
            return t
        if t[0] == "sub" and len(t) > 2 and strip_typed(t[1]) == ("attr", SELF, "_backend_options") and strip_typed(t[2])[0] == "const":
            return ("attr", SELF, strip_typed(t[2])[1])
        return tuple(eff(x) if isinstance(x, tuple) else x for x in t)

    local_args = []
    seen_low = seen_high = 0
    missing_store = 0
    for p in paths:
        # (a) floor of the Krylov tolerance
        floor_cond = None
        for c, t in p.cond_log:
            c0 = eff(c)
            if c0[0] == "cmp" and c0[1] in ("<", "<=", ">", ">=") and any(
                    x == ("param", f.qualname, n) for x in walk(c0) for n in ("precision", "extra_krylov_tolerance")):
                local_args.append(show(c0)[:70])
            if c0[0] == "cmp" and c0[1] in ("<", "<=", ">", ">=") and \
                    (same(c0[2], ("bin", "Mult", prec, extra)) or same(c0[3], ("bin", "Mult", prec, extra))):
                a, b, op = c0[2], c0[3], c0[1]
                if same(b, ("bin", "Mult", prec, extra)):
                    a, b, op = b, a, {"<": ">", ">": "<", "<=": ">=", ">=": "<="}[op]
                floor_cond = (op, b, t)
        stores = [e for e in p.events if e.kind == "setitem" and strip_typed(e.target[1]) == ("const", "extra_krylov_tolerance")
                  and "_backend_options" in show(e.target[0])]
        if not stores:
            missing_store += 1
            continue
        v = eff(stores[-1].value)
        if floor_cond is None and local_args:
            break
        if floor_cond is None:
            raise AnalysisError("CONFIG: the comparison of precision*extra_krylov_tolerance with the minimum was not "
                                "found on a path of MPSConfig.__init__")
        op, bound, truth = floor_cond
        below = (op in ("<", "<=")) == truth
        okb = is_const(bound, 1e-12)
        if below:
            seen_low += 1
            li = monomials(v)
            ok = okb and same(v, ("bin", "Div", ("const", 1e-12), prec))
            ctx.ob("CONFIG-krylov-floor", "below the floor", stores[-1].loc(), ok,
                   "precision·extra_krylov_tolerance < 1e-12 ⇒ extra_krylov_tolerance := 1e-12 / precision "
                   "(effective tolerance exactly 1e-12)" if ok else
                   f"below the floor the stored extra_krylov_tolerance is {show(v)[:60]} (bound {show(bound)}); the "
                   f"effective Krylov tolerance precision·extra can end up below 1e-12", entry=f.qualname)
        else:
            seen_high += 1
            ok = okb and strip_typed(v) == extra
            ctx.ob("CONFIG-krylov-floor", "above the floor", stores[-1].loc(), ok,
                   "otherwise the requested extra_krylov_tolerance is kept" if ok else
                   f"above the floor the stored extra_krylov_tolerance is {show(v)[:60]}", entry=f.qualname)
    ctx.ob("CONFIG-krylov-floor", "tested on the effective options", f.loc(), not local_args,
           "the floor compares self.precision · self.extra_krylov_tolerance (the options the solver reads)" if not local_args
           else f"the floor is tested on __init__'s keyword arguments ({local_args[0]}), not on the effective options: "
                f"values given through backend_options={{...}} override the arguments and escape the floor "
                f"(MPSConfig(backend_options={{'precision': 1e-14}}) runs with an effective Krylov tolerance of 1e-17)")
    if local_args:
        return
    ctx.ob("CONFIG-krylov-floor", "always stored", f.loc(), missing_store == 0 and seen_low >= 1 and seen_high >= 1,
           "every constructed config stores the adjusted extra_krylov_tolerance" if missing_store == 0 and seen_low and seen_high
           else f"{missing_store} path(s) of MPSConfig.__init__ do not store the adjusted tolerance "
                f"(floor branch seen {seen_low}×, keep branch {seen_high}×)")
    # (b) autosave_dt rejection, unconditional
    bad = 0
    form_ok = True
    local_dt = False
    for p in paths:
        a = [e for e in p.events if e.kind == "assert" and "autosave_dt" in show(e.value)]
        r = [c for c, t in p.cond_log if "autosave_dt" in show(c)]
        if not a and not r:
            bad += 1
            continue
        c = eff(a[0].value) if a else eff(r[0])
        if any(x == ("param", f.qualname, "autosave_dt") for x in walk(c)):
            local_dt = True
        if not (c[0] == "cmp" and c[1] == ">" and show(c[2]).endswith("autosave_dt") and is_const(c[3], 10)):
            if not (c[0] == "cmp" and c[1] == "<" and is_const(c[2], 10) and show(c[3]).endswith("autosave_dt")):
                form_ok = False
    ctx.ob("CONFIG-autosave", "tested on the effective option", f.loc(), not local_dt,
           "the test reads self.autosave_dt (the interval the backend uses)" if not local_dt else
           "the autosave test reads __init__'s keyword argument, not the effective option: an interval given through "
           "backend_options={'autosave_dt': 5} overrides the argument and is accepted")
    ctx.ob("CONFIG-autosave", "autosave_dt > 10 enforced", f.loc(), bad == 0 and form_ok,
           "every constructed config has passed `autosave_dt > 10`" if bad == 0 and form_ok else
           (f"{bad} path(s) construct a config without the autosave_dt test" if bad else
            "the autosave_dt test is not `autosave_dt > 10`: an interval of 10 s or less is accepted"))
    # (c) reordering switched off for observables that cannot be un-permuted
    bad = 0
    for p in paths:
        st = [e for e in p.events if e.kind == "setitem" and strip_typed(e.target[1]) == ("const", "optimize_qubit_ordering")]
        ok = False
        for e in st:
            v = strip_typed(e.value)
            if e.aug == "BitAnd" and v[0] == "mcall" and v[2].endswith("check_permutable_observables"):
                ok = True
            if e.aug is None and v[0] == "bin" and v[1] in ("BitAnd",) and "check_permutable_observables" in show(v) \
                    and "optimize_qubit_ordering" in show(v):
                ok = True
            if e.aug is None and v[0] == "bool" and v[1] == "and" and "check_permutable_observables" in show(v) \
                    and "optimize_qubit_ordering" in show(v):
                ok = True
        if not ok:
            bad += 1
    ctx.ob("CONFIG-reorder-guard", "optimize_qubit_ordering &= check_permutable_observables()", f.loc(), bad == 0,
           "every constructed config has optimize_qubit_ordering and-ed with check_permutable_observables()" if bad == 0
           else f"{bad} path(s) leave optimize_qubit_ordering untouched by check_permutable_observables(): reordering "
                f"stays on with observables that cannot be un-permuted")
    # check_permutable_observables returns "no base tag outside the whitelist"
    g = K.methods["check_permutable_observables"]
    itg = Interp(prog, K, inline=lambda c, r, d: False)
    rets = [p for p in itg.run(g) if p.status == "return"]
    okr = bool(rets)
    for p in rets:
        r = strip_typed(p.retval)
        s = show(r)
        empty = ("call", "set", (), ())
        good = (r[0] == "cmp" and r[1] == "==" and "difference" in s and
                (strip_typed(r[2])[:2] == empty[:2] and not strip_typed(r[2])[2] or
                 strip_typed(r[3])[:2] == empty[:2] and not strip_typed(r[3])[2])) or \
               (r[0] == "un" and r[1] == "not" and "difference" in s) or \
               (r[0] == "mcall" and r[2] in ("issubset",)) or (r[0] == "cmp" and r[1] == "<=")
        okr = okr and good and "_base_tag" in s
    ctx.ob("CONFIG-reorder-guard", "predicate", g.loc(), okr,
           "check_permutable_observables() ⇔ every observable's base tag is in the whitelist" if okr else
           f"check_permutable_observables returns {[show(p.retval)[:80] for p in rets]}")
    # the monkeypatching happens before the guard reads the observables
    for p in paths[:1]:
        names = [e.name.split(".")[-1] for e in p.events if e.kind == "call" and e.name.endswith(("monkeypatch_observables",))]
        ctx.ob("CONFIG-reorder-guard", "observables patched", f.loc(), bool(names),
               "observables are patched by the constructor" if names else "the constructor no longer patches observables")


# ===================================================================== ARGMIN
OPTM = "emu_mps.optimatrix.optimiser."
PERM = "emu_mps.optimatrix.permutations."


def argmin(ctx) -> None:
    prog = ctx.prog
    f = prog.func(OPTM + "minimize_bandwidth")
    it = Interp(prog, None, inline=lambda c, r, d: False)
    paths = [p for p in it.run(f) if p.status == "return"]
    ctx.require(len(paths) >= 1, "minimize_bandwidth: no returning path")
    p = paths[0]
    r = strip_typed(p.retval)
    ok_min = r[0] == "unpack" and r[2] == 0 and strip_typed(r[1])[0] == "call" and strip_typed(r[1])[1] == "min"
    key_ok = False
    for n in ast.walk(f.node):
        if isinstance(n, ast.Call) and dotted(n.func) == "min":
            for k in n.keywords:
                kv = k.value
                if isinstance(kv, ast.Name) and kv.id in util.single_assignments(f):
                    kv = util.single_assignments(f)[kv.id]
                if k.arg == "key" and isinstance(kv, ast.Lambda):
                    b = kv.body
                    key_ok = isinstance(b, ast.Subscript) and isinstance(b.slice, ast.Constant) and b.slice.value == 1
    ctx.ob("ARGMIN", "result is the arg-min", f.loc(), ok_min and key_ok,
           "the returned permutation is the first component of min(candidates, key=bandwidth)" if ok_min and key_ok else
           f"minimize_bandwidth returns {show(r)[:80]} (min by bandwidth: {key_ok})")
    cand = None
    if ok_min:
        gen = strip_typed(strip_typed(r[1])[2][0])
        if gen[0] == "comp":
            cand = gen
    ok_id = False
    ok_elem = False
    if cand is not None:
        src = strip_typed(cand[3][0][0])
        if src[0] == "call" and src[1] == "itertools.chain" and src[2]:
            first = strip_typed(src[2][0])
            if first[0] == "list" and len(first[1]) == 1:
                a = strip_typed(first[1][0])
                ok_id = a[0] == "call" and a[1] == "torch.arange" and "shape[0]" in show(a[2][0])
        el = strip_typed(cand[2][0])
        ok_elem = el[0] == "call" and el[1] == OPTM + "minimize_bandwidth_impl" and strip_typed(el[2][1])[0] == "elem"
    # every start permutation is its own tensor: minimize_bandwidth_impl hands a start back un-copied when nothing improves,
    # so a buffer shared between candidates (randperm(L, out=…)) is overwritten after its bandwidth was recorded
    shared = None
    if cand is not None:
        src0 = strip_typed(cand[3][0][0])
        if src0[0] == "call" and src0[1] == "itertools.chain":
            for t in walk(src0):
                if t[0] == "call" and t[1] in ("torch.randperm", "torch.arange") and any(k == "out" for k, _ in t[3]):
                    shared = f"{t[1].split('.')[-1]}(…, out={show(dict(t[3])['out'])[:30]})"
    ctx.ob("ARGMIN", "start permutations are independent tensors", f.loc(), shared is None,
           "every start permutation is a freshly allocated tensor" if shared is None else
           f"start permutations are written into a shared buffer ({shared}): a candidate that minimize_bandwidth_impl returns "
           f"un-copied is overwritten by the next draw while its recorded bandwidth stays — the arg-min is a random permutation")
    ctx.ob("ARGMIN", "identity is a candidate", f.loc(), ok_id,
           "the candidate start permutations begin with the identity arange(L)" if ok_id else
           "the identity permutation is not among the start permutations: the result can be worse than the input order")
    # the matrix the candidates are optimised for is |M| itself: any data-dependent rescaling (M / M.max(), M / M.sum())
    # is undefined for the all-zero or all-non-positive matrices the property quantifies over
    if ok_elem:
        m = strip_typed(el[2][0])
        inp = ("param", f.qualname, f.params[0])
        ok_abs = (m[0] == "call" and m[1] in ("torch.abs", "abs", "torch.absolute") and [strip_typed(a) for a in m[2]] == [inp]) or \
                 (m[0] == "mcall" and m[2] in ("abs", "absolute") and strip_typed(m[1]) == inp and not m[3])
        ctx.ob("ARGMIN", "optimised matrix is |M|", f.loc(), ok_abs,
               "the candidates are optimised for abs(input_matrix), unscaled" if ok_abs else
               f"the candidates are optimised for {show(m)[:70]}, not abs(input_matrix): a data-dependent rescaling is "
               f"0/0 or sign-flipping for zero or non-positive matrices, and the search then fails or ranks by another weight")
    ctx.ob("ARGMIN", "candidates", f.loc(), ok_elem,
           "each candidate is minimize_bandwidth_impl(|M|, start permutation)" if ok_elem else
           "the candidate generator does not apply minimize_bandwidth_impl to every start permutation")
    sym = any("is_symmetric" in show(c) and t for c, t in p.cond_log)
    ctx.ob("ARGMIN", "symmetric input required", f.loc(), sym,
           "a non-symmetric matrix is rejected" if sym else "the symmetry assertion on the input matrix is gone")
    # the improvement loop
    g = prog.func(OPTM + "minimize_bandwidth_impl")
    itg = Interp(prog, None, inline=lambda c, r, d: False, loop_iters=(1,))
    keep = improve = 0
    for q in itg.run(g):
        if q.status != "return":
            continue
        rv = strip_typed(q.retval)
        if rv[0] != "tuple" or len(rv[1]) != 2:
            raise AnalysisError(f"minimize_bandwidth_impl returns {show(rv)[:60]}")
        accept = None
        for c, t in q.cond_log:
            c0 = strip_typed(c)
            if c0[0] == "cmp" and c0[1] in ("<=", "<", ">", ">=") and "matrix_bandwidth" in show(c0):
                a, b, op = show(c0[2]), show(c0[3]), c0[1]
                old_first = "optimal" not in a and "minimize_bandwidth_global" not in a
                if not old_first:
                    op = {"<=": ">=", "<": ">", ">": "<", ">=": "<="}[op]
                # op now relates old (left) to new (right)
                stop = (op in ("<=",) and t) or (op == ">" and not t)
                stop_strict_ok = op in ("<=", ">")
                accept = (not stop, stop_strict_ok)
        if accept is None:
            continue
        accepted, strict = accept
        perm_t = strip_typed(rv[1][0])
        if not accepted:
            keep += 1
            ok = perm_t == ("param", g.qualname, "initial_perm")
            ctx.ob("ARGMIN", "no improvement keeps the permutation", g.loc(), ok,
                   "when a round does not strictly lower the bandwidth the accumulated permutation is returned unchanged"
                   if ok else f"without improvement the function returns {show(perm_t)[:60]}")
        else:
            improve += 1
            ok = perm_t[0] == "call" and perm_t[1] == PERM + "permute_tensor" and \
                strip_typed(perm_t[2][0]) == ("param", g.qualname, "initial_perm") and "minimize_bandwidth_global" in show(perm_t[2][1])
            okb = "matrix_bandwidth" in show(rv[1][1]) and "permute_tensor" in show(rv[1][1])
            ctx.ob("ARGMIN", "improvement composes permutations", g.loc(), ok and okb and strict,
                   "on strict improvement the accumulated permutation is gathered by the round's permutation and the "
                   "new bandwidth is returned" if ok and okb and strict else
                   f"on improvement returns ({show(perm_t)[:60]}, {show(rv[1][1])[:40]}); strict comparison: {strict}")
    ctx.require(keep >= 1 and improve >= 1, f"ARGMIN: loop paths found keep={keep} improve={improve}")
    # helper classes: all gather, inverse = scatter of arange
    helpers_gather(ctx)


def helpers_gather(ctx) -> None:
    prog = ctx.prog
    it = Interp(prog, None, inline=lambda c, r, d: False)

    def ret_of(q):
        return [p for p in it.run(prog.func(q)) if p.status == "return"]

    # permute_list: [x[i] for i in perm.tolist()]
    r = strip_typed(ret_of(PERM + "permute_list")[0].retval)
    ok = r[0] == "comp" and strip_typed(r[2][0])[0] == "sub" and show(strip_typed(r[2][0])[1]) == "input_list" and \
        strip_typed(strip_typed(r[2][0])[2])[0] == "elem" and "perm" in show(r[3][0][0])
    ctx.ob("ARGMIN-helpers", "permute_list gathers", prog.func(PERM + "permute_list").loc(), ok,
           "permute_list(x, p)[k] = x[p[k]]" if ok else f"permute_list returns {show(r)[:80]}")
    for name in ("permute_tuple", "permute_string"):
        rr = ret_of(PERM + name)[0].retval
        okn = PERM + "permute_list" in [t[1] for t in walk(rr) if t[0] == "call"] and "perm" in show(rr)
        ctx.ob("ARGMIN-helpers", f"{name} via permute_list", prog.func(PERM + name).loc(), okn,
               f"{name} delegates to permute_list with the same permutation" if okn else f"{name} returns {show(rr)[:80]}")
    # permute_tensor: t[p] / t[p][:, p]
    forms = set()
    for p in ret_of(PERM + "permute_tensor"):
        forms.add(show(p.retval))
    okt = forms == {"tensor[perm]", "tensor[perm][(:, perm)]"}
    ctx.ob("ARGMIN-helpers", "permute_tensor gathers", prog.func(PERM + "permute_tensor").loc(), okt,
           "permute_tensor(t, p) = t[p] (1-D) or t[p][:, p] (2-D)" if okt else f"permute_tensor returns {sorted(forms)}")
    # inv_permutation: inv[p] = arange(len(p))
    q = ret_of(PERM + "inv_permutation")[0]
    sc = [e for e in q.events if e.kind == "setitem"]
    oki = len(sc) == 1 and show(sc[0].target[1]) == "permutation" and "arange(len(permutation))" in show(sc[0].value) \
        and canon(strip_typed(q.retval)) == canon(strip_typed(sc[0].target[0]))
    ctx.ob("ARGMIN-helpers", "inv_permutation scatters arange", prog.func(PERM + "inv_permutation").loc(), oki,
           "inv[p[k]] = k" if oki else "inv_permutation is not the scatter of arange(len(p)) along p")
    e = strip_typed(ret_of(PERM + "eye_permutation")[0].retval)
    oke = e[0] == "call" and e[1] == "torch.arange" and show(e[2][0]) == "n"
    ctx.ob("ARGMIN-helpers", "eye_permutation", prog.func(PERM + "eye_permutation").loc(), oke,
           "eye_permutation(n) = arange(n)" if oke else f"eye_permutation returns {show(e)}")
