"""Generate /verif/MANIFEST.json from the registry of property modules.

    /venv/bin/python -m sa.manifest
"""
from __future__ import annotations

import json
import os

from . import props
from .report import VERIF

NOT_APPLICABLE = {
    "C05": "MPO bond-channel bookkeeping depends on the runtime sparsity pattern of the interaction matrix "
           "(data-dependent shapes and mask pop-counts); deciding it statically needs enumeration or a solver. "
           "The parts of it that are in the shape of the code - the single-site term update_H writes (formula "
           "identity against Pulser's drive Hamiltonian), its slots, the identity channels of the ten factor "
           "builders and the make_H bindings - are obligations of C02/C04/C17 (HAM-mps)",
    "C28": "norm/energy conservation are numerical consequences of unitarity and symmetric splitting; the "
           "structural prerequisites (TDVP coefficients, -i*dt exponent, is_hermitian) are obligations of C01/C02",
    "C29": "metamorphic equalities between the numerical results of two runs on transformed inputs; no "
           "structural necessary condition that would not also alarm on harmless edits",
}

ALL = [f"C{i:02d}" for i in range(1, 35)]


def build() -> dict:
    checks = []
    claimed = props.ids()
    for pid in claimed:
        meta = props.get(pid).META
        checks.append({
            "property_id": pid,
            "quick_cmd": f"./check {pid} --tier quick",
            "thorough_cmd": f"./check {pid} --tier thorough",
            "evidence_file": f"evidence/{pid}.json",
            "replay_cmd_template": f"./check {pid} --replay {{path}}",
            "engine": "sa",
            "level_claimed": {
                "category": "other",
                "text": ("Static analysis of the current source of /repo (nothing is executed). " +
                         meta["explanation"] + " Every obligation is decided for all inputs/paths of the "
                         "analysed constructs; it is a necessary structural condition of the property, not "
                         "the numerical behaviour itself."),
                "design_ref": meta.get("design_ref", "DESIGN.md §5"),
            },
            "level_note": ("Not decided: " + meta.get("not_decided", "") + ". Trusted: " +
                           "; ".join(meta.get("trusted_base", [])) + ". Assumes: " +
                           "; ".join(meta.get("assumptions", []))),
            "technique": meta["technique"],
        })
    na = []
    for pid in ALL:
        if pid in claimed:
            continue
        reason = NOT_APPLICABLE.get(pid) or "check not built yet in this session (structural clauses planned in DESIGN.md §5)"
        na.append({"property_id": pid, "reason": reason})
    return {
        "version": 1,
        "setup_cmd": "true",
        "hooks": {
            "guard": "PASQAL_IO_EMULATORS_VERIF",
            "enable": "no hooks: the checks read the source of /repo and never execute it",
            "baseline_off_cmd": "cd /repo && /venv/bin/python -m pytest -ra -q -p no:cacheprovider --timeout=900 "
                                "--continue-on-collection-errors",
            "source_commits": [],
            "add_only": True,
        },
        "engines": [{
            "name": "sa",
            "path": "sa/",
            "serves_properties": claimed,
            "kind_free_text": "custom static analyser over Python ast: program model with resolved callees, "
                              "statement CFG with dominators, path-sensitive abstract interpreter over a "
                              "provenance-term domain, rule families per DESIGN.md §4",
        }],
        "checks": checks,
        "notes": "Technique family: static analysis only. Exit 2 + 'ANALYSIS-ERROR' means the analysis could "
                 "not be carried out (anchor moved, idiom not recognised) and is never a verdict. Known "
                 "findings: known-findings.txt.",
        "not_applicable": na,
    }


def main() -> None:
    m = build()
    path = os.path.join(VERIF, "MANIFEST.json")
    with open(path, "w", encoding="utf-8") as f:
        json.dump(m, f, indent=1)
        f.write("\n")
    print(f"wrote {path}: {len(m['checks'])} checks, {len(m['not_applicable'])} not applicable")


if __name__ == "__main__":
    main()
