"""Program model: modules, classes, functions, imports, class hierarchy.

The loader parses every ``*.py`` under the given package directories of the
repository root.  An *overlay* ``{relative path: source}`` replaces the on-disk
text of a file; it is how in-memory mutants are analysed without touching
/repo.
"""
from __future__ import annotations

import ast
import os
from dataclasses import dataclass, field
from typing import Iterable, Optional


class AnalysisError(Exception):
    """The analysis could not be carried out (exit 2, never a verdict)."""


PACKAGES = ("emu_base", "emu_mps", "emu_sv")


def repo_root() -> str:
    return os.environ.get("VERIF_REPO", "/repo")


@dataclass
class FuncInfo:
    qualname: str
    name: str
    node: ast.FunctionDef
    module: "Module"
    cls: Optional["ClassInfo"] = None
    parent: Optional["FuncInfo"] = None
    decorators: tuple = ()

    @property
    def is_static(self) -> bool:
        return "staticmethod" in self.decorators

    @property
    def is_classmethod(self) -> bool:
        return "classmethod" in self.decorators

    @property
    def is_property(self) -> bool:
        return "property" in self.decorators

    @property
    def params(self) -> list[str]:
        a = self.node.args
        return [x.arg for x in a.posonlyargs + a.args + a.kwonlyargs]

    @property
    def file(self) -> str:
        return self.module.relpath

    def loc(self, node: ast.AST | None = None) -> str:
        n = node if node is not None else self.node
        return f"{self.module.relpath}:{getattr(n, 'lineno', 0)}"

    def __hash__(self) -> int:
        return hash(self.qualname)

    def __eq__(self, other: object) -> bool:
        return isinstance(other, FuncInfo) and other.qualname == self.qualname

    def __repr__(self) -> str:
        return f"<func {self.qualname}>"


@dataclass
class ClassInfo:
    qualname: str
    name: str
    node: ast.ClassDef
    module: "Module"
    base_exprs: list = field(default_factory=list)
    bases: list = field(default_factory=list)  # canonical qualified names (str)
    methods: dict = field(default_factory=dict)  # name -> FuncInfo
    attrs: dict = field(default_factory=dict)  # name -> (annotation|None, value|None)
    decorators: tuple = ()

    def __hash__(self) -> int:
        return hash(self.qualname)

    def __eq__(self, other: object) -> bool:
        return isinstance(other, ClassInfo) and other.qualname == self.qualname

    def __repr__(self) -> str:
        return f"<class {self.qualname}>"


@dataclass
class Module:
    name: str
    relpath: str
    source: str
    tree: ast.Module
    is_package: bool
    imports: dict = field(default_factory=dict)  # alias -> qualified target
    funcs: dict = field(default_factory=dict)
    classes: dict = field(default_factory=dict)
    globals: dict = field(default_factory=dict)  # name -> value node

    def segment(self, node: ast.AST) -> str:
        return ast.get_source_segment(self.source, node) or ast.unparse(node)


def _decorator_names(node) -> tuple:
    out = []
    for d in node.decorator_list:
        if isinstance(d, ast.Call):
            d = d.func
        if isinstance(d, ast.Name):
            out.append(d.id)
        elif isinstance(d, ast.Attribute):
            out.append(d.attr)
    return tuple(out)


class Program:
    def __init__(self, root: str | None = None, overlay: dict | None = None,
                 packages: Iterable[str] = PACKAGES, pkg_prefix: str = ""):
        self.root = root or repo_root()
        self.overlay = dict(overlay or {})
        self.modules: dict[str, Module] = {}
        self.classes: dict[str, ClassInfo] = {}
        self.funcs: dict[str, FuncInfo] = {}
        self.packages = tuple(packages)
        self.parse_stats = {"files": 0, "ast_nodes": 0, "functions": 0, "classes": 0}
        self._load()
        self._link()

    # ------------------------------------------------------------------ load
    def read(self, relpath: str) -> str:
        if relpath in self.overlay:
            return self.overlay[relpath]
        with open(os.path.join(self.root, relpath), encoding="utf-8") as f:
            return f.read()

    def _load(self) -> None:
        for pkg in self.packages:
            base = os.path.join(self.root, pkg)
            if not os.path.isdir(base):
                raise AnalysisError(f"package directory missing: {base}")
            for dirpath, dirnames, filenames in os.walk(base):
                dirnames[:] = sorted(d for d in dirnames if d != "__pycache__")
                for fn in sorted(filenames):
                    if not fn.endswith(".py"):
                        continue
                    full = os.path.join(dirpath, fn)
                    rel = os.path.relpath(full, self.root)
                    self._load_file(rel)
        for rel in self.overlay:
            if rel.endswith(".py") and rel.split("/")[0] in self.packages:
                modname = self._modname(rel)[0]
                if modname not in self.modules:
                    self._load_file(rel)

    @staticmethod
    def _modname(rel: str) -> tuple[str, bool]:
        parts = rel[:-3].split(os.sep)
        is_pkg = parts[-1] == "__init__"
        if is_pkg:
            parts = parts[:-1]
        return ".".join(parts), is_pkg

    def _load_file(self, rel: str) -> None:
        src = self.read(rel)
        try:
            tree = ast.parse(src, filename=rel)
        except SyntaxError as e:  # a tree that does not parse is not a program
            raise AnalysisError(f"syntax error in {rel}: {e}") from e
        name, is_pkg = self._modname(rel)
        mod = Module(name=name, relpath=rel, source=src, tree=tree, is_package=is_pkg)
        self.modules[name] = mod
        self.parse_stats["files"] += 1
        self.parse_stats["ast_nodes"] += sum(1 for _ in ast.walk(tree))
        self._index_module(mod)

    def _index_module(self, mod: Module) -> None:
        pkg = mod.name if mod.is_package else mod.name.rpartition(".")[0]

        def absolutize(level: int, module: str | None) -> str:
            if level == 0:
                return module or ""
            base = pkg.split(".") if pkg else []
            if level > 1:
                base = base[: len(base) - (level - 1)]
            if module:
                base = base + module.split(".")
            return ".".join(base)

        def scan_imports(stmts) -> None:
            for st in stmts:
                if isinstance(st, ast.Import):
                    for a in st.names:
                        if a.asname:
                            mod.imports[a.asname] = a.name
                        else:
                            top = a.name.split(".")[0]
                            mod.imports.setdefault(top, top)
                elif isinstance(st, ast.ImportFrom):
                    src = absolutize(st.level, st.module)
                    for a in st.names:
                        mod.imports[a.asname or a.name] = f"{src}.{a.name}" if src else a.name
                elif isinstance(st, (ast.If, ast.Try)):
                    for blk in ("body", "orelse", "finalbody"):
                        scan_imports(getattr(st, blk, []))
                    for h in getattr(st, "handlers", []):
                        scan_imports(h.body)

        scan_imports(mod.tree.body)

        def add_func(node, cls: ClassInfo | None, parent: FuncInfo | None, prefix: str) -> FuncInfo:
            q = f"{prefix}.{node.name}"
            fi = FuncInfo(qualname=q, name=node.name, node=node, module=mod, cls=cls,
                          parent=parent, decorators=_decorator_names(node))
            self.funcs[q] = fi
            self.parse_stats["functions"] += 1
            for sub in ast.walk(node):
                if sub is node:
                    continue
                if isinstance(sub, (ast.FunctionDef, ast.AsyncFunctionDef)) and _directly_nested(node, sub):
                    add_func(sub, None, fi, q + ".<locals>")
            return fi

        def add_class(node: ast.ClassDef, prefix: str) -> None:
            q = f"{prefix}.{node.name}"
            ci = ClassInfo(qualname=q, name=node.name, node=node, module=mod,
                           base_exprs=list(node.bases), decorators=_decorator_names(node))
            self.classes[q] = ci
            mod.classes[node.name] = ci
            self.parse_stats["classes"] += 1
            for st in node.body:
                if isinstance(st, (ast.FunctionDef, ast.AsyncFunctionDef)):
                    ci.methods[st.name] = add_func(st, ci, None, q)
                elif isinstance(st, ast.AnnAssign) and isinstance(st.target, ast.Name):
                    ci.attrs[st.target.id] = (st.annotation, st.value)
                elif isinstance(st, ast.Assign):
                    for t in st.targets:
                        if isinstance(t, ast.Name):
                            ci.attrs[t.id] = (None, st.value)
                elif isinstance(st, ast.ClassDef):
                    add_class(st, q)

        def scan_defs(stmts) -> None:
            for st in stmts:
                if isinstance(st, (ast.FunctionDef, ast.AsyncFunctionDef)):
                    mod.funcs[st.name] = add_func(st, None, None, mod.name)
                elif isinstance(st, ast.ClassDef):
                    add_class(st, mod.name)
                elif isinstance(st, ast.Assign):
                    for t in st.targets:
                        if isinstance(t, ast.Name):
                            mod.globals[t.id] = st.value
                elif isinstance(st, ast.AnnAssign) and isinstance(st.target, ast.Name) and st.value is not None:
                    mod.globals[st.target.id] = st.value
                elif isinstance(st, ast.If):
                    scan_defs(st.body)
                    scan_defs(st.orelse)

        scan_defs(mod.tree.body)

    # ------------------------------------------------------------------ link
    def _link(self) -> None:
        for ci in self.classes.values():
            ci.bases = []
            for b in ci.base_exprs:
                if isinstance(b, ast.Subscript):  # State[complex, torch.Tensor]
                    b = b.value
                d = dotted(b)
                if d is None:
                    continue
                ci.bases.append(self.canon(self.qualify(ci.module, d)))

    # ------------------------------------------------------------ resolution
    def qualify(self, mod: Module, name: str) -> str:
        """Qualified target of a dotted name as seen from module `mod`."""
        head, _, rest = name.partition(".")
        if head in mod.funcs or head in mod.classes or head in mod.globals:
            base = f"{mod.name}.{head}"
        elif head in mod.imports:
            base = mod.imports[head]
        else:
            base = head  # builtin or unknown
        return f"{base}.{rest}" if rest else base

    def canon(self, q: str, _depth: int = 0) -> str:
        """Follow re-exports (``from .x import y`` in packages) to the defining module."""
        if _depth > 12:
            return q
        if q in self.funcs or q in self.classes or q in self.modules:
            return q
        parts = q.split(".")
        # longest module prefix
        for i in range(len(parts) - 1, 0, -1):
            mname = ".".join(parts[:i])
            if mname in self.modules:
                mod = self.modules[mname]
                head = parts[i]
                rest = parts[i + 1:]
                if head in mod.classes:
                    base = mod.classes[head].qualname
                elif head in mod.funcs:
                    base = mod.funcs[head].qualname
                elif head in mod.globals:
                    base = f"{mname}.{head}"
                    if not rest:
                        return base
                elif head in mod.imports:
                    tgt = mod.imports[head]
                    return self.canon(".".join([tgt] + rest), _depth + 1)
                elif f"{mname}.{head}" in self.modules:
                    base = f"{mname}.{head}"
                else:
                    return q
                return ".".join([base] + rest) if rest else base
        return q

    def lookup(self, q: str):
        """Repo object for a canonical qualified name, or None (external)."""
        q = self.canon(q)
        if q in self.funcs:
            return self.funcs[q]
        if q in self.classes:
            return self.classes[q]
        if q in self.modules:
            return self.modules[q]
        # Class.method / Class.attr
        head, _, last = q.rpartition(".")
        if head in self.classes:
            m = self.find_method(self.classes[head], last)
            if m is not None:
                return m
        return None

    def global_value(self, q: str):
        """(module, value node) of a module-level constant, or None."""
        q = self.canon(q)
        mname, _, name = q.rpartition(".")
        mod = self.modules.get(mname)
        if mod and name in mod.globals:
            return mod, mod.globals[name]
        return None

    # ------------------------------------------------------------- hierarchy
    def mro(self, ci: ClassInfo) -> list[ClassInfo]:
        out, seen = [], set()

        def walk(c: ClassInfo) -> None:
            if c.qualname in seen:
                return
            seen.add(c.qualname)
            out.append(c)
            for b in c.bases:
                bc = self.classes.get(b)
                if bc is not None:
                    walk(bc)

        walk(ci)
        return out

    def external_bases(self, ci: ClassInfo) -> list[str]:
        out = []
        for c in self.mro(ci):
            for b in c.bases:
                if b not in self.classes and b not in out:
                    out.append(b)
        return out

    def find_method(self, ci: ClassInfo, name: str, after: ClassInfo | None = None) -> FuncInfo | None:
        chain = self.mro(ci)
        if after is not None:
            idx = [c.qualname for c in chain].index(after.qualname)
            chain = chain[idx + 1:]
        for c in chain:
            if name in c.methods:
                return c.methods[name]
        return None

    def find_class_attr(self, ci: ClassInfo, name: str):
        for c in self.mro(ci):
            if name in c.attrs:
                return c, c.attrs[name]
        return None

    def subclasses(self, ci: ClassInfo, strict: bool = False) -> list[ClassInfo]:
        out = []
        for c in self.classes.values():
            if ci in self.mro(c) and (not strict or c != ci):
                out.append(c)
        return out

    def is_subclass(self, c: ClassInfo, base: ClassInfo) -> bool:
        return base in self.mro(c)

    # ------------------------------------------------------------- shortcuts
    def func(self, q: str) -> FuncInfo:
        f = self.funcs.get(q)
        if f is None:
            raise AnalysisError(f"anchor function not found: {q}")
        return f

    def cls(self, q: str) -> ClassInfo:
        c = self.classes.get(q)
        if c is None:
            raise AnalysisError(f"anchor class not found: {q}")
        return c

    def module(self, q: str) -> Module:
        m = self.modules.get(q)
        if m is None:
            raise AnalysisError(f"anchor module not found: {q}")
        return m

    def functions_in(self, ci: ClassInfo) -> list[FuncInfo]:
        """Methods visible on ci through the repo part of its MRO (most derived first)."""
        seen, out = set(), []
        for c in self.mro(ci):
            for n, f in c.methods.items():
                if n not in seen:
                    seen.add(n)
                    out.append(f)
        return out


def _directly_nested(outer, inner) -> bool:
    """True if `inner` def is nested in `outer` with no other def in between."""
    for node in ast.walk(outer):
        if node is outer:
            continue
        if isinstance(node, (ast.FunctionDef, ast.AsyncFunctionDef, ast.Lambda, ast.ClassDef)):
            if node is inner:
                continue
            for sub in ast.walk(node):
                if sub is inner and node is not inner:
                    return False
    return True


def dotted(node: ast.AST) -> str | None:
    if isinstance(node, ast.Name):
        return node.id
    if isinstance(node, ast.Attribute):
        b = dotted(node.value)
        return f"{b}.{node.attr}" if b else None
    return None


_CACHE: dict = {}


def load_program(root: str | None = None, overlay: dict | None = None) -> Program:
    return Program(root=root, overlay=overlay)
