from common import *
import os, pickle, time, pathlib
# ---- D2: bad atoms + reordering
n=5; nsteps=6
order=[0,3,1,4,2]
pos=torch.tensor([float(order.index(i)) for i in range(n)])
U=torch.zeros(n,n,dtype=torch.float64)
for i in range(n):
    for j in range(n):
        if i!=j: U[i,j]=3.0/abs(pos[i]-pos[j])**6
for reorder in (False, True):
    cfg=emu_mps.MPSConfig(dt=10, num_gpus_to_use=0, optimize_qubit_ordering=reorder, log_level=100,
        observables=[emu_mps.Occupation(evaluation_times=[1.0])])
    sd=seqdata(n,nsteps=nsteps,U=U,bad=[False,True,False,False,False],spe=0.1)
    try:
        r=MPSBackend._run_from_sequence_data(sd,cfg); print("bad atom q1, reorder",reorder, r.occupation[-1])
    except Exception as e: print("reorder",reorder,"raised",repr(e))
cfg=emu_sv.SVConfig(dt=10, gpu=False, log_level=100, observables=[emu_sv.Occupation(evaluation_times=[1.0])])
r=SVBackend._run_from_sequence_data(seqdata(n,nsteps=nsteps,U=U,bad=[False,True,False,False,False],spe=0.1), cfg)
print("sv bad q1            ", r.occupation[-1])
# ---- all-but-one bad / leakage+bad
for bad in ([True,True,True,True,False],[True]*5):
    cfg=emu_mps.MPSConfig(dt=10, num_gpus_to_use=0, optimize_qubit_ordering=False, log_level=100,
        observables=[emu_mps.Occupation(evaluation_times=[1.0])])
    try:
        r=MPSBackend._run_from_sequence_data(seqdata(n,nsteps=nsteps,U=U,bad=bad,spe=0.1),cfg); print("bad",bad,r.occupation[-1])
    except Exception as e: print("bad",bad,"raised",repr(e)[:100])
