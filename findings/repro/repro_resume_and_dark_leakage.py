from common import *
import pickle, os, tempfile
from emu_mps.mps_backend_impl import create_impl
# ---- resume vs run with a non-identity permutation
n=5; nsteps=6
order=[0,3,1,4,2]
pos=torch.tensor([float(order.index(i)) for i in range(n)])
U=torch.zeros(n,n,dtype=torch.float64)
for i in range(n):
    for j in range(n):
        if i!=j: U[i,j]=3.0/abs(pos[i]-pos[j])**6
delta=torch.zeros(nsteps,n,dtype=torch.float64); delta[:, :]=torch.tensor([0.,1.,2.,3.,4.])  # local detuning -> distinguishable atoms
def cfg(): return emu_mps.MPSConfig(dt=10, num_gpus_to_use=0, optimize_qubit_ordering=True, log_level=100,
        observables=[emu_mps.CorrelationMatrix(evaluation_times=[1.0]), emu_mps.BitStrings(evaluation_times=[1.0], num_shots=20)])
torch.manual_seed(1)
full=MPSBackend._run_from_sequence_data(seqdata(n,nsteps=nsteps,U=U,delta=delta), cfg())
impl=create_impl(seqdata(n,nsteps=nsteps,U=U,delta=delta), cfg()); impl.init()
for _ in range(3): impl.progress()
d=tempfile.mkdtemp(); f=os.path.join(d,"save.dat")
with open(f,"wb") as fh: pickle.dump(impl, fh)
torch.manual_seed(1)
res=MPSBackend.resume(f)
print("perm", impl.qubit_permutation.tolist())
print("run    atom_order", full.atom_order, "diag corr", torch.diagonal(full.correlation_matrix[-1]))
print("resume atom_order", res.atom_order, "diag corr", torch.diagonal(torch.as_tensor(res.correlation_matrix[-1])))
# ---- dark atom with leakage (dim 3)
try:
    L=torch.zeros(3,3,dtype=torch.complex128); L[2,1]=0.1
    sd=seqdata(3,nsteps=3,bad=[False,True,False],spe=0.1,eig=("r","g","x"),lind=[L])
    c=emu_mps.MPSConfig(dt=10,num_gpus_to_use=0,optimize_qubit_ordering=False,log_level=100,observables=[emu_mps.Occupation(evaluation_times=[1.0])])
    r=MPSBackend._run_from_sequence_data(sd,c); print("dark+leak ok", r.occupation[-1])
except Exception as e:
    import traceback; print("dark+leak raised", type(e).__name__, str(e)[:120])
