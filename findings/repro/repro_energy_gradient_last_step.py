"""K3 (C30): a loss built from the Energy observable.  The generator handed to the energy callbacks is built inside
EvolveStateVector.forward (a torch.autograd.Function, i.e. without a graph), so E's explicit dependence on the last
step's detuning / amplitude / interaction matrix is missing from the autograd graph: the gradient w.r.t. the parameters
of the last step differs from central finite differences (earlier steps agree).  Run from the root of a checkout:
exit 0 = the autograd gradient of the final energy matches finite differences."""
import sys, os; sys.path.insert(0, os.getcwd())
import inspect, logging, torch
import pulser.backend.observable as _obs
_orig=_obs.Observable.__init__
if "default_aggregation_method" in inspect.signature(_orig).parameters:
    from pulser.backend.observable import AggregationMethod
    def _p(self,*a,**k):
        k.setdefault("default_aggregation_method",AggregationMethod.SKIP); _orig(self,*a,**k)
    _obs.Observable.__init__=_p
from emu_sv import SVConfig, SVBackend, Energy
from emu_base import SequenceData, HamiltonianType
from emu_base.pulser_adapter import _InteractionMatrixCallable
torch.manual_seed(3)
N,S=2,3
U=torch.tensor([[0,3.],[3.,0]],dtype=torch.float64)
om=(4+torch.rand(S,N,dtype=torch.float64))
z=torch.zeros(S,N,dtype=torch.complex128)
def loss(de):
    cfg=SVConfig(observables=[Energy(evaluation_times=[1.0])],log_level=logging.WARN,gpu=False,krylov_tolerance=1e-12)
    sd=SequenceData(om.to(torch.complex128),de.to(torch.complex128),z.clone(),_InteractionMatrixCallable(U,U,0.0),("a","b"),(False,False),[],0.0,[0.,50.,100.,150.],["r","g"],HamiltonianType.Rydberg)
    res=SVBackend._run_from_sequence_data(sd,cfg)
    return res.energy[-1]
de=(1+torch.rand(S,N,dtype=torch.float64)).requires_grad_(True)
E=loss(de)
if not (isinstance(E, torch.Tensor) and E.requires_grad):
    print("the reported energy does not depend on the detunings in the autograd graph at all"); sys.exit(1)
g,=torch.autograd.grad(E,de)
fd=torch.zeros_like(g); eps=1e-5
for i in range(S):
    for j in range(N):
        d=torch.zeros_like(de); d[i,j]=eps
        fd[i,j]=(float(loss((de+d).detach()))-float(loss((de-d).detach())))/(2*eps)
err=(g-fd).abs()
print("autograd dE/d delta:\n", g, "\nfinite differences:\n", fd)
print("max |ad-fd| per step:", err.max(dim=1).values.tolist())
sys.exit(0 if err.max().item()<1e-6 else 1)
