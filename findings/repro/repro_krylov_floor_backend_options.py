"""F15 (C33): the Krylov-tolerance floor must hold for the *effective* options.  Pulser's (deprecated, still accepted)
`backend_options={...}` dictionary overrides the keyword arguments in the stored options; MPSConfig tested the floor on
its local keyword arguments, so a precision given that way escaped it.  Run from the root of a checkout: exit 0 = every
constructed config has precision * extra_krylov_tolerance >= 1e-12."""
import sys, os, warnings; sys.path.insert(0, os.getcwd())
warnings.simplefilter("ignore")
import logging; logging.disable(logging.CRITICAL)
from emu_mps import MPSConfig
bad = 0
for kw in ({"backend_options": {"precision": 1e-14}},
           {"backend_options": {"extra_krylov_tolerance": 1e-9}},
           {"precision": 1e-3, "backend_options": {"precision": 1e-11, "extra_krylov_tolerance": 1e-4}},
           {"precision": 1e-14},                                   # the keyword path (always floored)
           {"precision": 1e-6, "extra_krylov_tolerance": 1e-9}):
    c = MPSConfig(observables=[], **kw)
    eff = c.precision * c.extra_krylov_tolerance
    ok = eff >= 1e-12 * (1 - 1e-12)
    print(f"MPSConfig({kw}): precision={c.precision:g} extra_krylov_tolerance={c.extra_krylov_tolerance:g} "
          f"effective Krylov tolerance={eff:.3g}  {'ok' if ok else 'BELOW THE 1e-12 FLOOR'}")
    bad += not ok
sys.exit(1 if bad else 0)
