from common import *
import emu_base.jump_lindblad_operators as jl
from pulser.noise_model import NoiseModel
# ---- WG-DIV: pchip NaN gradient on flat segment
from emu_base.math.pchip_torch import PCHIP1D
x=torch.arange(6,dtype=torch.float64)
y=torch.tensor([0.,1.,1.,1.,2.,3.],dtype=torch.float64,requires_grad=True)
p=PCHIP1D(x,y)
v=p(torch.tensor([0.5,2.5,4.5],dtype=torch.float64)).sum()
g,=torch.autograd.grad(v,y)
print("pchip value",v.item(),"grad",g)
# ---- D10 leakage basis mapping
import numpy as np
op=np.zeros((3,3)); op[2,0]=1.0   # pulser basis (r,g,x): |x><r|
try:
    nm=NoiseModel(eff_noise_opers=[op], eff_noise_rates=[1.0], with_leakage=True)
    L=jl.get_lindblad_operators(noise_type="eff_noise", noise_model=nm, dim=3, interact_type="ising")
    print("emu op for pulser |x><r| :\n", L[0].real)
except Exception as e:
    print("noise model err", repr(e))
# ---- DMRG + noise dispatch
from emu_mps.mps_backend_impl import create_impl
nm=NoiseModel(relaxation_rate=0.1)
cfg=emu_mps.MPSConfig(dt=10,num_gpus_to_use=0,solver="dmrg",noise_model=nm,log_level=100)
L=jl.get_lindblad_operators(noise_type="relaxation",noise_model=nm)
sd=seqdata(3,lind=L)
impl=create_impl(sd,cfg)
print("DMRG+noise ->", type(impl).__name__)
# ---- XY on emu-sv
sdxy=seqdata(3,eig=("0","1"),htype=HamiltonianType.XY)
cfg=emu_sv.SVConfig(dt=10,gpu=False,log_level=100,observables=[emu_sv.Occupation(evaluation_times=[1.0])])
try:
    r=SVBackend._run_from_sequence_data(sdxy,cfg); print("sv XY returned results:", r.occupation[-1])
except Exception as e: print("sv XY raised", repr(e))
