"""F12 (C30): a loss that uses an observable of an intermediate evaluation time cannot be differentiated on the
unrepaired tree (krylov_exp normalised its input in place); after the fix the autograd gradient matches central
finite differences.  Run from the root of a checkout: exit 0 = gradient available and correct."""
import sys, os; sys.path.insert(0, os.getcwd())
import inspect, logging, torch
import pulser.backend.observable as _obs
_orig=_obs.Observable.__init__
if "default_aggregation_method" in inspect.signature(_orig).parameters:
    from pulser.backend.observable import AggregationMethod
    def _p(self,*a,**k):
        k.setdefault("default_aggregation_method",AggregationMethod.SKIP); _orig(self,*a,**k)
    _obs.Observable.__init__=_p
from emu_sv import SVConfig, SVBackend, Occupation
from emu_base import SequenceData, HamiltonianType
from emu_base.pulser_adapter import _InteractionMatrixCallable
torch.manual_seed(1)
N,S=2,4
U=torch.tensor([[0,3.],[3.,0]],dtype=torch.float64)
z=torch.zeros(S,N,dtype=torch.complex128)
def loss(om):
    cfg=SVConfig(observables=[Occupation(evaluation_times=[0.5,1.0])],log_level=logging.WARN,gpu=False,krylov_tolerance=1e-12)
    sd=SequenceData(om.to(torch.complex128),z,z.clone(),_InteractionMatrixCallable(U,U,0.0),("a","b"),(False,False),[],0.0,[0.,50.,100.,150.,200.],["r","g"],HamiltonianType.Rydberg)
    res=SVBackend._run_from_sequence_data(sd,cfg)
    return res.occupation[0].sum()+2*res.occupation[1].sum()
om=(4+torch.rand(S,N,dtype=torch.float64)).requires_grad_(True)
g,=torch.autograd.grad(loss(om),om)
fd=torch.zeros_like(g)
eps=1e-5
for i in range(S):
    for j in range(N):
        d=torch.zeros_like(om); d[i,j]=eps
        fd[i,j]=(loss((om+d).detach())-loss((om-d).detach()))/(2*eps)
print("max |ad-fd| =", (g-fd).abs().max().item())
sys.exit(0 if (g-fd).abs().max().item()<1e-6 else 1)
