from common import *
n=5; nsteps=20
order=[0,3,1,4,2]
pos=torch.tensor([float(order.index(i)) for i in range(n)])
U=torch.zeros(n,n,dtype=torch.float64)
for i in range(n):
    for j in range(n):
        if i!=j: U[i,j]=25.0/abs(pos[i]-pos[j])**6
# asymmetric register: end atoms differ from middle ones, so occupations identify the order
cfg=emu_mps.MPSConfig(dt=10, num_gpus_to_use=0, optimize_qubit_ordering=True, log_level=100,
    observables=[emu_mps.Occupation(evaluation_times=[1.0]), emu_mps.Occupation(evaluation_times=[1.0], tag_suffix="again")])
print("reordering kept on:", cfg.optimize_qubit_ordering)
omega=torch.full((nsteps,n),6.0,dtype=torch.float64)
r=MPSBackend._run_from_sequence_data(seqdata(n,nsteps=nsteps,U=U,omega=omega), cfg)
print(r.get_result_tags(), r.atom_order)
print("occupation       ", r.occupation[-1])
print("occupation_again ", r.occupation_again[-1])
