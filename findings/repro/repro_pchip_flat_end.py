"""F14 (C22): PCHIP on data whose first or last interval is flat must stay flat there (standard PCHIP: the end slope is
zeroed whenever its sign differs from the sign of the boundary secant, a zero secant included).  Run from the root of a
checkout: exit 0 = agrees with the reference values of standard PCHIP (SciPy's PchipInterpolator gives the same)."""
import sys, os; sys.path.insert(0, os.getcwd())
import torch
from emu_base.math.pchip_torch import PCHIP1D
x = torch.arange(6, dtype=torch.float64)
bad = 0
for name, y, q, want in (
        ("pulse ending two samples before the end", [0, 1, 3, 5, 0, 0], [4.25, 4.5, 4.75, 5.5], [0, 0, 0, 0]),
        ("pulse starting after a two-sample delay", [0, 0, 2, 5, 3, 1], [0.25, 0.5, 0.75, -0.5], [0, 0, 0, 0])):
    got = PCHIP1D(x, torch.tensor(y, dtype=torch.float64))(torch.tensor(q, dtype=torch.float64)).tolist()
    ok = all(abs(g - w) < 1e-12 for g, w in zip(got, want))
    print(f"{name}: samples {y}, at {q}: {[round(g, 4) for g in got]} (standard PCHIP: {want})  {'ok' if ok else 'WRONG'}")
    bad += not ok
sys.exit(1 if bad else 0)
