"""F13 (C14): an observable with its own evaluation times is also recorded at a *default* evaluation time that lies
within Pulser's half-nanosecond tolerance of one of its own times.  Run from the root of a checkout: exit 0 = every
observable is recorded once per requested time."""
import sys, os; sys.path.insert(0, os.getcwd()); sys.path.insert(0, os.path.dirname(os.path.abspath(__file__)))
import logging, torch
from common import seqdata
from emu_sv import SVConfig, SVBackend, Occupation as SvOcc, Energy as SvEnergy
from emu_mps import MPSConfig, MPSBackend, Occupation as MpsOcc, Energy as MpsEnergy

T = [0.0, 250.0, 500.0, 500.3, 750.0, 1000.0]          # ns; 0.5 is the default time, 0.5003 the occupation's own time
bad = 0
for name, Backend, Config, Occ, En, kw in (("emu-sv", SVBackend, SVConfig, SvOcc, SvEnergy, dict(gpu=False)),
                                          ("emu-mps", MPSBackend, MPSConfig, MpsOcc, MpsEnergy, dict(num_gpus_to_use=0, optimize_qubit_ordering=False))):
    import dataclasses
    sd = dataclasses.replace(seqdata(2, nsteps=len(T) - 1), target_times=T)
    cfg = Config(observables=[Occ(evaluation_times=[0.5003]), En()], default_evaluation_times=[0.5], log_level=logging.WARN, **kw)
    res = Backend._run_from_sequence_data(sd, cfg)
    times = res.get_result_times("occupation")
    ok = [round(t, 6) for t in times] == [0.5003]
    print(f"{name}: occupation requested at [0.5003], recorded at {[round(t, 6) for t in times]}  {'ok' if ok else 'RECORDED TWICE'}")
    bad += not ok
sys.exit(1 if bad else 0)
