import torch, math
import pulser
from pulser.backend.observable import Observable, AggregationMethod
_orig = Observable.__init__
def _init(self, *, default_aggregation_method=AggregationMethod.SKIP, evaluation_times=None, tag_suffix=None):
    _orig(self, default_aggregation_method=default_aggregation_method, evaluation_times=evaluation_times, tag_suffix=tag_suffix)
Observable.__init__ = _init
from emu_base.pulser_adapter import SequenceData, HamiltonianType, _InteractionMatrixCallable
import emu_mps, emu_sv
from emu_mps.mps_backend import MPSBackend
from emu_sv.sv_backend import SVBackend

def seqdata(n, nsteps=10, dt=10.0, omega=None, delta=None, phi=None, U=None, bad=None, spe=0.0, lind=None, eig=("r","g"), htype=HamiltonianType.Rydberg, slm_end=0.0, Umasked=None):
    T=[k*dt for k in range(nsteps+1)]
    def mk(x, default):
        if x is None: x = torch.full((nsteps,n), default, dtype=torch.float64)
        return x.to(torch.complex128)
    omega=mk(omega, 2.0); delta=mk(delta, 0.5); phi=mk(phi, 0.0)
    if U is None:
        U=torch.zeros(n,n,dtype=torch.float64)
        for i in range(n):
            for j in range(n):
                if i!=j: U[i,j]=5.0/abs(i-j)**6
    cal=_InteractionMatrixCallable(U, Umasked if Umasked is not None else U, slm_end)
    ids=tuple(f"q{i}" for i in range(n))
    bad = tuple(bad) if bad is not None else tuple(False for _ in range(n))
    return SequenceData(omega, delta, phi, cal, ids, bad, lind or [], spe, T, list(eig), htype)
