from common import *
torch.manual_seed(0)
n=5; nsteps=10
# a register whose optimal order is not identity: chain order scrambled
order=[0,3,1,4,2]
pos=torch.tensor([float(order.index(i)) for i in range(n)])
U=torch.zeros(n,n,dtype=torch.float64)
for i in range(n):
    for j in range(n):
        if i!=j: U[i,j]=3.0/abs(pos[i]-pos[j])**6
omega=torch.zeros(nsteps,n,dtype=torch.float64); omega[:,0]=3.0; omega[:,1]=1.0   # local drive: only atoms 0,1 driven
outs={}
for reorder in (False, True):
    cfg=emu_mps.MPSConfig(dt=10, num_gpus_to_use=0, optimize_qubit_ordering=reorder, log_level=100,
        observables=[emu_mps.Occupation(evaluation_times=[1.0])])
    sd=seqdata(n, nsteps=nsteps, omega=omega, U=U)
    impl_res=MPSBackend._run_from_sequence_data(sd, cfg)
    outs[reorder]=impl_res.occupation[-1]
    print("reorder",reorder, impl_res.atom_order, impl_res.occupation[-1])
# sv reference
cfg=emu_sv.SVConfig(dt=10, gpu=False, log_level=100, observables=[emu_sv.Occupation(evaluation_times=[1.0])])
r=SVBackend._run_from_sequence_data(seqdata(n,nsteps=nsteps,omega=omega,U=U), cfg)
print("sv     ", r.occupation[-1])
