from common import *
from emu_base.pulser_adapter import _extract_omega_delta_phi
T=20
amp=torch.linspace(3.0,0.0,T,dtype=torch.float64)
class S:
    max_duration=T
    def to_nested_dict(self, all_local, samples_type):
        z=torch.zeros(T,dtype=torch.float64)
        return {"Local":{"ground-rydberg":{"q0":{"amp":amp,"det":z,"phase":z}}}}
for times in ([0,10,19,19.5,20],[0,10,19,20]):
    times=[float(t) for t in times]
    o,d,p=_extract_omega_delta_phi(S(),("q0",),times)
    print(times, "omega rows:", o.real.flatten())
