from common import *
from emu_base.pulser_adapter import _get_target_times
from unittest.mock import MagicMock
import numpy as np
seq=MagicMock(); 
found=None
for duration in (100, 1000, 300):
    seq.get_duration.return_value=duration
    for dt in (0.1,0.3,0.7,3,7,9,11):
        for k in range(1,int(duration/dt)):
            t=round(k*dt/duration,10)
            if t*duration != (k*float(dt)/duration)*duration or t!=k*float(dt)/duration:
                found=(duration,dt,k,t); break
        if found: break
    if found: break
print("found",found, repr(found[2]*float(found[1])/found[0]), repr(found[3]))
duration,dt,k,t=found
seq.get_duration.return_value=duration
cfg=emu_sv.SVConfig(dt=dt,gpu=False,log_level=100,observables=[emu_sv.Occupation(evaluation_times=[t,1.0])])
T=_get_target_times(seq,cfg,dt)
d=np.diff(np.array(T)); print("n targets",len(T),"min step",d.min())
# run sv with those target times
n=2; nsteps=len(T)-1
sd=seqdata(n,nsteps=nsteps)
sd=SequenceData(sd.omega,sd.delta,sd.phi,sd.interaction_matrix,sd.qubit_ids,sd.bad_atoms,[],0.0,T,sd.eigenstates,sd.hamiltonian_type)
try:
    r=SVBackend._run_from_sequence_data(sd,cfg)
    print("result times for occupation:", [repr(x) for x in r.get_result_times("occupation")])
except Exception as e:
    print("raised", repr(e)[:300])
