from common import *
from emu_base.pulser_adapter import _extract_omega_delta_phi
from pulser.waveforms import BlackmanWaveform
import numpy as np
T=100
amp=torch.tensor(BlackmanWaveform(T, 3.14).samples.as_array() if hasattr(BlackmanWaveform(T,3.14).samples,'as_array') else np.array(BlackmanWaveform(T,3.14).samples), dtype=torch.float64)
print("amp tail", amp[-4:])
class S:
    max_duration=T
    def to_nested_dict(self, all_local, samples_type):
        z=torch.zeros(T,dtype=torch.float64)
        return {"Local":{"ground-rydberg":{"q0":{"amp":amp,"det":z,"phase":z}}}}
for times in ([0,50,99,99.5,100],[0,50,99.2,99.6,100.0]):
    times=[float(t) for t in times]
    S.max_duration=times[-1]
    o,d,p=_extract_omega_delta_phi(S(),("q0",),times)
    print(times, "omega rows:", o.real.flatten())
