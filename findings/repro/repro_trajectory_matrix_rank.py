"""K1 (C31), fourth key: under pulser-core 1.9.x NoiseTrajectory.interaction_matrix has a leading axis, shape (1, N, N)
for the Rydberg and (2, N, N) for the XY interaction; PulserData.get_sequences uses it as an (N, N) matrix.
Run from the root of a checkout: exit 0 = the matrix handed to the backends is (N, N)."""
import sys, os, warnings; sys.path.insert(0, os.getcwd())
warnings.simplefilter("ignore")
import pulser
from pulser.devices import MockDevice
from emu_sv import SVConfig
from emu_base.pulser_adapter import PulserData
reg = pulser.Register.from_coordinates([(0, 0), (6, 0), (0, 6)], prefix="q")
seq = pulser.Sequence(reg, MockDevice)
seq.declare_channel("ch", "rydberg_global")
seq.add(pulser.Pulse.ConstantPulse(100, 1.0, 0.0, 0.0), "ch")
pd = PulserData(sequence=seq, config=SVConfig(observables=[], gpu=False), dt=10)
sd = next(iter(pd.get_sequences()))
shape = tuple(sd.interaction_matrix(0.0).shape)
print(f"pulser-core {pulser.__version__}: SequenceData.interaction_matrix(0).shape = {shape} for 3 atoms")
sys.exit(0 if shape == (3, 3) else 1)
