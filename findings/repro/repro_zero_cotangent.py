"""Observation (C30), not decided by a rule: a loss whose gradient w.r.t. the final state is exactly zero — |00>, zero
drive, loss = occupation of one atom — must have a finite (zero) gradient w.r.t. the detunings.  Run from the root of a
checkout: exit 0 = finite gradient."""
import sys, os; sys.path.insert(0, os.getcwd())
import inspect, logging, torch
import pulser.backend.observable as _obs
_orig=_obs.Observable.__init__
if "default_aggregation_method" in inspect.signature(_orig).parameters:
    from pulser.backend.observable import AggregationMethod
    def _p(self,*a,**k):
        k.setdefault("default_aggregation_method",AggregationMethod.SKIP); _orig(self,*a,**k)
    _obs.Observable.__init__=_p
from emu_sv import SVConfig, SVBackend, Occupation
from emu_base import SequenceData, HamiltonianType
from emu_base.pulser_adapter import _InteractionMatrixCallable
N,S=2,1
U=torch.tensor([[0,3.],[3.,0]],dtype=torch.float64)
z=torch.zeros(S,N,dtype=torch.complex128)
de=torch.ones(S,N,dtype=torch.float64,requires_grad=True)
cfg=SVConfig(observables=[Occupation(evaluation_times=[1.0])],log_level=logging.WARN,gpu=False)
sd=SequenceData(z.clone(),de.to(torch.complex128),z.clone(),_InteractionMatrixCallable(U,U,0.0),("a","b"),(False,False),[],0.0,[0.,50.],["r","g"],HamiltonianType.Rydberg)
res=SVBackend._run_from_sequence_data(sd,cfg)
loss=res.occupation[-1][0]
try:
    g,=torch.autograd.grad(loss,de)
    print("gradient:", g); sys.exit(0 if torch.isfinite(g).all() else 1)
except BaseException as e:
    print("gradient raised", type(e).__name__, str(e)[:100]); sys.exit(1)
